//! Shared generators: regex patterns (as a small AST rendered to text),
//! pattern-directed haystacks (strings sampled from the pattern's language,
//! then mutated and mixed with filler and special lines).

use regex_syntax::hir::{self, Hir, HirKind};

use crate::bs::Bs;
use crate::sea::Term;
use crate::tape::Tape;

/// What the pattern generator may produce.
#[derive(Clone, Copy, Debug)]
pub struct ReOpts {
    pub max_nodes: usize,
    /// allow atoms that can match `\n` (`\s`, `[^a]`, `\n`, `(?s:.)`, `\W`…)
    pub allow_newline: bool,
    /// allow explicit terminator spellings (`\n`, `\x0A`, `[\n]`) that the
    /// line-mode builder must reject
    pub allow_literal_newline: bool,
    pub allow_unicode: bool,
    pub allow_captures: bool,
    pub allow_look: bool,
    pub allow_flags: bool,
    /// allow `(?-u:\xFF)`-style atoms matching invalid UTF-8
    pub allow_bytes: bool,
    /// allow explicit `\r` / NUL atoms
    pub allow_cr_nul: bool,
}

impl ReOpts {
    pub fn line_mode() -> ReOpts {
        ReOpts {
            max_nodes: 12,
            allow_newline: true,
            allow_literal_newline: false,
            allow_unicode: true,
            allow_captures: true,
            allow_look: true,
            allow_flags: true,
            allow_bytes: true,
            allow_cr_nul: true,
        }
    }
}

#[derive(Clone, Debug)]
pub enum Re {
    Lit(String),
    Atom(&'static str),
    Group(GroupKind, Box<Re>),
    Alt(Vec<Re>),
    Cat(Vec<Re>),
    Rep(Box<Re>, String),
    Flags(&'static str, Box<Re>),
}

#[derive(Clone, Debug)]
pub enum GroupKind {
    Cap,
    NonCap,
    Named(String),
}

const LIT_CHARS: &[&str] = &[
    "a", "b", "c", "x", "y", "A", "B", "0", "1", "_", " ", "-", "\\.", "k", "K", "s", "é", "ß", "☃", "𝄞", "\\+", "\\(", "z", "É", "Δ", "Ж",
];
const UNI_LIT: &[&str] = &["é", "É", "Δ", "δ", "Ж", "ß", "☃"];
const ASCII_LIT: usize = 15; // prefix of LIT_CHARS that is ASCII (through "s")

const CLASS_ATOMS: &[&str] = &[
    ".", "[a-c]", "[ab]", "\\w", "\\d", "[0-9]", "[a-zA-Z_]", "[xy]", "[[:alpha:]]", "[^a]", "\\s", "\\S", "\\W", "\\D", "[^\\w]", "[a-c&&[^b]]",
];
const CLASS_ATOMS_NO_NL: &[&str] = &[".", "[a-c]", "[ab]", "\\w", "\\d", "[0-9]", "[a-zA-Z_]", "[xy]", "[[:alpha:]]", "\\S"];
const UNI_CLASS_ATOMS: &[&str] = &["\\pL", "\\p{Greek}", "[é-ü]", "\\PL", "\\p{Lu}", "[☃-☄]"];
const UNI_CLASS_ATOMS_NO_NL: &[&str] = &["\\pL", "\\p{Greek}", "[é-ü]", "\\p{Lu}", "[☃-☄]"];
const BYTE_ATOMS: &[&str] = &["(?-u:\\xFF)", "(?-u:[\\x80-\\xFF])", "(?-u:.)", "(?s-u:.)"];
const BYTE_ATOMS_NO_NL: &[&str] = &["(?-u:\\xFF)", "(?-u:[\\x80-\\xFF])", "(?-u:.)"];
const LOOK_ATOMS: &[&str] = &["^", "$", "\\b", "\\B", "\\b{start}", "\\b{end}", "\\b{start-half}", "\\b{end-half}", "(?-u:\\b)", "(?-u:\\B)"];
const NL_LITERALS: &[&str] = &["\\n", "\\x0A", "\\u{A}", "[\\n]", "[\\n-\\r]"];
const CR_NUL_ATOMS: &[&str] = &["\\r", "\\x00", "[\\r]", "[\\x00a]", "\\r?"];
// The counts 10/11/12 sit at the inner-literal extractor's repetition limit
// (limit_repeat = 10), 65 and 101 beyond its total / literal-length limits.
const REPS: &[&str] = &["*", "+", "?", "{2}", "{1,2}", "{0,3}", "{2,}", "*?", "+?", "??", "{1,3}?", "{10}", "{11}", "{12}", "{9,11}", "{11,}", "{65}", "{101}"];
const FLAG_GROUPS: &[&str] = &["i", "s", "-u", "x", "R", "U", "m", "i-u"];
const CAP_NAMES: &[&str] = &["n", "a1", "a_b", "a.b", "a[0]", "Z"];

struct Budget {
    left: usize,
    big_rep_used: bool,
}

pub fn gen_re(t: &mut Tape, o: &ReOpts) -> Re {
    let mut b = Budget { left: 1 + t.small(o.max_nodes.saturating_sub(1)), big_rep_used: false };
    gen_node(t, o, &mut b, 0)
}

fn gen_lit(t: &mut Tape, o: &ReOpts) -> Re {
    let n = 1 + t.small(3);
    let mut s = String::new();
    for _ in 0..n {
        let uni = o.allow_unicode && t.chance(1, 5);
        let limit = if uni { LIT_CHARS.len() } else { ASCII_LIT };
        if uni && t.chance(1, 2) {
            s.push_str(*t.pick(UNI_LIT));
            continue;
        }
        // bias toward the first three letters so haystacks collide
        let i = if t.chance(1, 2) { t.below(3) } else { t.below(limit) };
        s.push_str(LIT_CHARS[i]);
    }
    Re::Lit(s)
}

fn gen_atom(t: &mut Tape, o: &ReOpts) -> Re {
    // weights: literal, class, unicode class, byte atom, look, newline literal, cr/nul
    let w = [
        10,
        6,
        if o.allow_unicode { 2 } else { 0 },
        if o.allow_bytes { 1 } else { 0 },
        if o.allow_look { 4 } else { 0 },
        if o.allow_literal_newline { 2 } else { 0 },
        if o.allow_cr_nul { 1 } else { 0 },
    ];
    match t.weighted(&w) {
        0 => gen_lit(t, o),
        1 => Re::Atom(if o.allow_newline { *t.pick(CLASS_ATOMS) } else { *t.pick(CLASS_ATOMS_NO_NL) }),
        2 => Re::Atom(if o.allow_newline { *t.pick(UNI_CLASS_ATOMS) } else { *t.pick(UNI_CLASS_ATOMS_NO_NL) }),
        3 => Re::Atom(if o.allow_newline { *t.pick(BYTE_ATOMS) } else { *t.pick(BYTE_ATOMS_NO_NL) }),
        4 => Re::Atom(*t.pick(LOOK_ATOMS)),
        5 => Re::Atom(*t.pick(NL_LITERALS)),
        _ => Re::Atom(*t.pick(CR_NUL_ATOMS)),
    }
}

fn gen_node(t: &mut Tape, o: &ReOpts, b: &mut Budget, depth: usize) -> Re {
    if b.left <= 1 || depth >= 5 {
        b.left = b.left.saturating_sub(1);
        return gen_atom(t, o);
    }
    b.left -= 1;
    // atom, concat, alternation, repetition, group, flags
    let w = [4, 6, 3, 4, if o.allow_captures { 2 } else { 1 }, if o.allow_flags { 1 } else { 0 }];
    match t.weighted(&w) {
        0 => gen_atom(t, o),
        1 => {
            let n = 2 + t.below(3);
            Re::Cat((0..n).map(|_| gen_node(t, o, b, depth + 1)).collect())
        }
        2 => {
            let n = 2 + t.below(2);
            Re::Alt((0..n).map(|_| gen_node(t, o, b, depth + 1)).collect())
        }
        3 => {
            if !b.big_rep_used && t.chance(1, 6) {
                // a large count: only around a single character and only once
                // per pattern, otherwise compiled sizes explode
                b.big_rep_used = true;
                let op = REPS[11 + t.below(REPS.len() - 11)];
                let c = LIT_CHARS[t.below(3)];
                Re::Rep(Box::new(Re::Lit(c.to_string())), op.to_string())
            } else {
                let inner = gen_node(t, o, b, depth + 1);
                Re::Rep(Box::new(inner), REPS[t.below(11)].to_string())
            }
        }
        4 => {
            let inner = gen_node(t, o, b, depth + 1);
            let kind = if !o.allow_captures {
                GroupKind::NonCap
            } else {
                match t.below(3) {
                    0 => GroupKind::NonCap,
                    1 => GroupKind::Cap,
                    _ => GroupKind::Named(t.pick(CAP_NAMES).to_string()),
                }
            };
            Re::Group(kind, Box::new(inner))
        }
        _ => {
            let inner = gen_node(t, o, b, depth + 1);
            Re::Flags(*t.pick(FLAG_GROUPS), Box::new(inner))
        }
    }
}

impl Re {
    pub fn render(&self) -> String {
        let mut s = String::new();
        let mut names = vec![];
        self.render_into(&mut s, &mut names);
        s
    }

    fn needs_group_for_rep(&self) -> bool {
        match self {
            Re::Lit(l) => l.chars().count() > 1 && !(l.starts_with('\\') && l.chars().count() == 2),
            Re::Atom(a) => a.ends_with('?'),
            Re::Group(..) | Re::Flags(..) => false,
            _ => true,
        }
    }

    fn render_into(&self, s: &mut String, names: &mut Vec<String>) {
        match self {
            Re::Lit(l) => s.push_str(l),
            Re::Atom(a) => s.push_str(a),
            Re::Group(kind, inner) => {
                match kind {
                    GroupKind::Cap => s.push('('),
                    GroupKind::NonCap => s.push_str("(?:"),
                    GroupKind::Named(n) => {
                        // duplicate names are a parse error; fall back to a plain capture
                        if names.contains(n) {
                            s.push('(');
                        } else {
                            names.push(n.clone());
                            s.push_str("(?P<");
                            s.push_str(n);
                            s.push('>');
                        }
                    }
                }
                inner.render_into(s, names);
                s.push(')');
            }
            Re::Alt(xs) => {
                for (i, x) in xs.iter().enumerate() {
                    if i > 0 {
                        s.push('|');
                    }
                    x.render_into(s, names);
                }
            }
            Re::Cat(xs) => {
                for x in xs {
                    if matches!(x, Re::Alt(_)) {
                        s.push_str("(?:");
                        x.render_into(s, names);
                        s.push(')');
                    } else {
                        x.render_into(s, names);
                    }
                }
            }
            Re::Rep(inner, op) => {
                if inner.needs_group_for_rep() {
                    s.push_str("(?:");
                    inner.render_into(s, names);
                    s.push(')');
                } else {
                    inner.render_into(s, names);
                }
                s.push_str(op);
            }
            Re::Flags(f, inner) => {
                s.push_str("(?");
                s.push_str(f);
                s.push(':');
                inner.render_into(s, names);
                s.push(')');
            }
        }
    }
}

/// Parse a pattern the way the per-line oracle does (independent of
/// grep-regex): used for sampling strings of the language.
pub fn parse_hir(pattern: &str, case_insensitive: bool, unicode: bool, crlf: bool, dotall: bool) -> Option<Hir> {
    regex_syntax::ParserBuilder::new()
        .utf8(false)
        .multi_line(true)
        .case_insensitive(case_insensitive)
        .unicode(unicode)
        .crlf(crlf)
        .dot_matches_new_line(dotall)
        .build()
        .parse(pattern)
        .ok()
}

/// Sample a string from (a superset approximation of) the language of `h`:
/// look-arounds are ignored, so the sample is a *likely* match, not a
/// guaranteed one. `avoid` lists bytes not to pick from classes when the
/// class has other members (the line terminator).
pub fn sample_hir(t: &mut Tape, h: &Hir, avoid: &[u8], out: &mut Vec<u8>, depth: usize) {
    // hard cap: nested counted repetitions multiply (the sample then simply
    // is not in the language any more, which is harmless)
    if out.len() > 4000 || depth > 40 {
        return;
    }
    match h.kind() {
        HirKind::Empty | HirKind::Look(_) => {}
        HirKind::Literal(hir::Literal(b)) => out.extend_from_slice(b),
        HirKind::Class(hir::Class::Unicode(c)) => {
            let rs = c.ranges();
            if rs.is_empty() {
                return;
            }
            for _ in 0..4 {
                let r = rs[t.below(rs.len())];
                let (lo, hi) = (r.start() as u32, r.end() as u32);
                let cp = match t.below(4) {
                    0 => lo,
                    1 => hi,
                    _ => lo + t.below((hi - lo + 1).min(64) as usize) as u32,
                };
                if let Some(ch) = char::from_u32(cp) {
                    if ch.is_ascii() && avoid.contains(&(ch as u8)) {
                        continue;
                    }
                    let mut buf = [0u8; 4];
                    out.extend_from_slice(ch.encode_utf8(&mut buf).as_bytes());
                    return;
                }
            }
        }
        HirKind::Class(hir::Class::Bytes(c)) => {
            let rs = c.ranges();
            if rs.is_empty() {
                return;
            }
            for _ in 0..4 {
                let r = rs[t.below(rs.len())];
                let (lo, hi) = (r.start() as usize, r.end() as usize);
                let b = match t.below(4) {
                    0 => lo,
                    1 => hi,
                    _ => lo + t.below(hi - lo + 1),
                } as u8;
                if avoid.contains(&b) {
                    continue;
                }
                out.push(b);
                return;
            }
        }
        HirKind::Repetition(r) => {
            let min = (r.min as usize).min(130);
            let max = r.max.map(|m| m as usize).unwrap_or(min + 3).min(min + 3);
            // stay inside the language: at least `min` repetitions
            let n = if depth > 6 { min } else { t.range(min, max.max(min)) };
            for _ in 0..n {
                if out.len() > 4000 {
                    break;
                }
                sample_hir(t, &r.sub, avoid, out, depth + 1);
            }
        }
        HirKind::Capture(c) => sample_hir(t, &c.sub, avoid, out, depth + 1),
        HirKind::Concat(xs) => {
            for x in xs {
                sample_hir(t, x, avoid, out, depth + 1);
            }
        }
        HirKind::Alternation(xs) => {
            let i = t.below(xs.len());
            sample_hir(t, &xs[i], avoid, out, depth + 1);
        }
    }
}

/// Collect the literal bytes of a pattern's HIR (the filler alphabet).
pub fn literal_alphabet(h: &Hir, out: &mut Vec<u8>) {
    match h.kind() {
        HirKind::Literal(hir::Literal(b)) => out.extend_from_slice(b),
        HirKind::Repetition(r) => literal_alphabet(&r.sub, out),
        HirKind::Capture(c) => literal_alphabet(&c.sub, out),
        HirKind::Concat(xs) | HirKind::Alternation(xs) => xs.iter().for_each(|x| literal_alphabet(x, out)),
        _ => {}
    }
}

const FILLER: &[u8] = b"abcxy AB01_-.kKsz";
const SPECIAL_PIECES: &[&[u8]] = &[
    b"\r", b"\0", b"\xFF", b"\xC3", b"\xE2\x98", b"\t", b"  ", "é".as_bytes(), "ß".as_bytes(), "☃".as_bytes(), "𝄞".as_bytes(),
    "ſ".as_bytes(), "K".as_bytes(), "É".as_bytes(), "δ".as_bytes(), "Δ".as_bytes(), "ж".as_bytes(), b"\x0B", b"\x0C", "\u{85}".as_bytes(), "\u{2028}".as_bytes(),
];

fn filler(t: &mut Tape, alpha: &[u8], max: usize) -> Vec<u8> {
    let n = t.small(max);
    (0..n)
        .map(|_| {
            if !alpha.is_empty() && t.chance(2, 3) {
                *t.pick(alpha)
            } else {
                *t.pick(FILLER)
            }
        })
        .collect()
}

fn mutate(t: &mut Tape, s: &mut Vec<u8>, alpha: &[u8]) {
    if s.is_empty() {
        return;
    }
    match t.below(7) {
        0 => {
            let i = t.below(s.len());
            s.remove(i);
        }
        6 => {
            // swap the case of the first non-ASCII cased letter (smart case / (?i) over non-ASCII)
            const PAIRS: &[(&str, &str)] = &[("É", "é"), ("Δ", "δ"), ("Ж", "ж")];
            for (u, l) in PAIRS {
                for (from, to) in [(u.as_bytes(), l.as_bytes()), (l.as_bytes(), u.as_bytes())] {
                    if let Some(i) = s.windows(from.len()).position(|w| w == from) {
                        s[i..i + from.len()].copy_from_slice(to);
                        return;
                    }
                }
            }
        }
        1 => {
            let i = t.below(s.len() + 1);
            let b = if !alpha.is_empty() { *t.pick(alpha) } else { *t.pick(FILLER) };
            s.insert(i, b);
        }
        2 => {
            let i = t.below(s.len());
            s[i] = *t.pick(FILLER);
        }
        3 => {
            let i = t.below(s.len());
            if s[i].is_ascii_alphabetic() {
                s[i] ^= 0x20;
            }
        }
        4 => {
            let i = t.below(s.len());
            s.truncate(i);
        }
        _ => {
            let i = t.below(s.len() + 1);
            let p = *t.pick(SPECIAL_PIECES);
            for (k, b) in p.iter().enumerate() {
                s.insert(i + k, *b);
            }
        }
    }
}

/// Generate one line's content (no terminator inside unless it is an
/// ordinary byte under `term`).
pub fn gen_line(t: &mut Tape, hirs: &[Hir], alpha: &[u8], term: Term) -> Vec<u8> {
    let tb = term.byte();
    let mut line = match t.weighted(&[5, 4, 3, 2, 1]) {
        0 => {
            // embedded sample
            let mut v = filler(t, alpha, 4);
            if !hirs.is_empty() {
                let h = &hirs[t.below(hirs.len())];
                sample_hir(t, h, &[tb, b'\n'], &mut v, 0);
            }
            v.extend(filler(t, alpha, 4));
            v
        }
        1 => {
            // mutated sample
            let mut v = vec![];
            if !hirs.is_empty() {
                let h = &hirs[t.below(hirs.len())];
                sample_hir(t, h, &[tb, b'\n'], &mut v, 0);
            }
            let n = 1 + t.below(2);
            for _ in 0..n {
                mutate(t, &mut v, alpha);
            }
            v
        }
        2 => filler(t, alpha, 8),
        3 => match t.below(6) {
            0 => vec![],
            1 => b" ".to_vec(),
            2 => b"\r".to_vec(),
            3 => b"a\r".to_vec(),
            4 => b"\rb".to_vec(),
            _ => b"\t \t".to_vec(),
        },
        _ => {
            let mut v = filler(t, alpha, 6);
            let p = *t.pick(SPECIAL_PIECES);
            let i = t.below(v.len() + 1);
            for (k, b) in p.iter().enumerate() {
                v.insert(i + k, *b);
            }
            v
        }
    };
    // the terminator byte cannot be part of a line's content
    line.retain(|b| *b != tb);
    line
}

/// Join line contents with the configured terminator; in CRLF mode some
/// lines end in a lone LF.
pub fn join_lines(t: &mut Tape, lines: &[Vec<u8>], term: Term, final_term: bool) -> Vec<u8> {
    let mut v = vec![];
    for (i, l) in lines.iter().enumerate() {
        v.extend_from_slice(l);
        if i + 1 < lines.len() || final_term {
            if term == Term::Crlf && t.chance(1, 4) {
                v.push(b'\n');
            } else {
                v.extend_from_slice(term.bytes());
            }
        }
    }
    v
}

/// A haystack for the given patterns: `n` pattern-directed lines.
pub fn gen_haystack(t: &mut Tape, hirs: &[Hir], term: Term, max_lines: usize) -> Vec<u8> {
    let mut alpha = vec![];
    for h in hirs {
        literal_alphabet(h, &mut alpha);
    }
    alpha.retain(|b| *b != term.byte() && *b != b'\n');
    let n = t.small(max_lines);
    let lines: Vec<Vec<u8>> = (0..n).map(|_| gen_line(t, hirs, &alpha, term)).collect();
    let final_term = !t.chance(1, 4);
    join_lines(t, &lines, term, final_term)
}

pub fn bs(v: Vec<u8>) -> Bs {
    Bs(v)
}

/// Does the input begin with a byte-order mark the searcher would sniff
/// (UTF-8, UTF-16LE, UTF-16BE)? Such inputs are transcoded first, which is
/// C17's subject; checks about plain searching exclude them.
pub fn starts_with_bom(input: &[u8]) -> bool {
    input.starts_with(b"\xEF\xBB\xBF") || input.starts_with(b"\xFF\xFE") || input.starts_with(b"\xFE\xFF")
}

/// Does the pattern text switch on CRLF mode with an inline flag (`(?R)`,
/// `(?iR:`...)?
pub fn has_inline_crlf_flag(pattern: &str) -> bool {
    let b = pattern.as_bytes();
    let mut i = 0;
    while i + 1 < b.len() {
        if b[i] == b'(' && b[i + 1] == b'?' {
            let mut j = i + 2;
            let mut neg = false;
            while j < b.len() && (b[j].is_ascii_alphabetic() || b[j] == b'-') {
                if b[j] == b'-' {
                    neg = true;
                }
                if b[j] == b'R' && !neg {
                    return true;
                }
                j += 1;
            }
        }
        i += 1;
    }
    false
}

/// An earlier input for the same `Searcher` (see `SCfg::warm`): a few lines,
/// sometimes without a final terminator, with a NUL, starting with a UTF-16
/// byte-order mark, or large enough to grow the searcher's buffers.
pub fn gen_warm(t: &mut Tape, term: Term) -> Option<crate::bs::Bs> {
    if !t.chance(1, 3) {
        return None;
    }
    let mut v: Vec<u8> = vec![];
    if t.chance(1, 8) {
        v.extend_from_slice(b"\xFF\xFEx\x00\n\x00");
    }
    let n = 1 + t.small(6);
    for i in 0..n {
        let len = t.small(12);
        for _ in 0..len {
            v.push(*t.pick(b"xoab x\xC3\xA9"));
        }
        if t.chance(1, 10) {
            v.push(0);
        }
        if i + 1 < n || !t.chance(1, 3) {
            v.extend_from_slice(term.bytes());
        }
    }
    if t.chance(1, 12) {
        let line: Vec<u8> = b"warm x line ".iter().copied().chain(term.bytes().iter().copied()).collect();
        for _ in 0..(70_000 / line.len()) {
            v.extend_from_slice(&line);
        }
    }
    Some(crate::bs::Bs(v))
}
