//! Byte strings that serialize to readable, lossless JSON strings:
//! printable ASCII as is (backslash doubled), everything else as `\xHH`.

use serde::{Deserialize, Deserializer, Serialize, Serializer};

#[derive(Clone, PartialEq, Eq, Hash, PartialOrd, Ord, Default)]
pub struct Bs(pub Vec<u8>);

impl std::fmt::Debug for Bs {
    fn fmt(&self, f: &mut std::fmt::Formatter<'_>) -> std::fmt::Result {
        write!(f, "b\"{}\"", enc(&self.0))
    }
}

impl std::ops::Deref for Bs {
    type Target = Vec<u8>;
    fn deref(&self) -> &Vec<u8> {
        &self.0
    }
}

impl From<Vec<u8>> for Bs {
    fn from(v: Vec<u8>) -> Bs {
        Bs(v)
    }
}
impl From<&[u8]> for Bs {
    fn from(v: &[u8]) -> Bs {
        Bs(v.to_vec())
    }
}
impl From<&str> for Bs {
    fn from(v: &str) -> Bs {
        Bs(v.as_bytes().to_vec())
    }
}

pub fn enc(b: &[u8]) -> String {
    let mut s = String::with_capacity(b.len());
    for &c in b {
        match c {
            b'\\' => s.push_str("\\\\"),
            b'\n' => s.push_str("\\n"),
            b'\r' => s.push_str("\\r"),
            b'\t' => s.push_str("\\t"),
            0x20..=0x7e => s.push(c as char),
            _ => s.push_str(&format!("\\x{c:02X}")),
        }
    }
    s
}

pub fn dec(s: &str) -> Result<Vec<u8>, String> {
    let b = s.as_bytes();
    let mut out = Vec::with_capacity(b.len());
    let mut i = 0;
    while i < b.len() {
        if b[i] == b'\\' {
            i += 1;
            match b.get(i) {
                Some(b'\\') => out.push(b'\\'),
                Some(b'n') => out.push(b'\n'),
                Some(b'r') => out.push(b'\r'),
                Some(b't') => out.push(b'\t'),
                Some(b'x') => {
                    let h = s.get(i + 1..i + 3).ok_or("short \\x escape")?;
                    out.push(u8::from_str_radix(h, 16).map_err(|e| e.to_string())?);
                    i += 2;
                }
                other => return Err(format!("bad escape {other:?}")),
            }
            i += 1;
        } else {
            out.push(b[i]);
            i += 1;
        }
    }
    Ok(out)
}

impl Serialize for Bs {
    fn serialize<S: Serializer>(&self, s: S) -> Result<S::Ok, S::Error> {
        s.serialize_str(&enc(&self.0))
    }
}

impl<'de> Deserialize<'de> for Bs {
    fn deserialize<D: Deserializer<'de>>(d: D) -> Result<Bs, D::Error> {
        let s = String::deserialize(d)?;
        dec(&s).map(Bs).map_err(serde::de::Error::custom)
    }
}
