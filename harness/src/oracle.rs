//! Per-line regex oracle: the user's pattern text compiled by the `regex`
//! crate and applied to one line's content at a time. It shares the regex
//! engine with ripgrep but none of grep-regex's rewriting (terminator
//! stripping, banning, literal extraction, HIR-level word/line wrapping),
//! none of the searcher, and never sees more than one line.

use regex::bytes::{Regex, RegexBuilder};
use regex_syntax::ast::{self, Ast};

use crate::mat::{CaseMode, PatCfg};
use crate::sea::Term;

#[derive(Debug)]
pub enum OracleErr {
    /// Outside the property's domain (reason is counted).
    Excluded(&'static str),
    /// The regex crate rejects the pattern text.
    Invalid(String),
}

pub struct LineOracle {
    pub re: Regex,
    pub crlf: bool,
    pub pattern: String,
    pub case_insensitive: bool,
}

#[derive(Default, Clone, Copy)]
struct CaseInfo {
    any_literal: bool,
    any_upper: bool,
}

fn lit_case(l: &ast::Literal, ci: &mut CaseInfo) {
    ci.any_literal = true;
    if l.c.is_uppercase() {
        ci.any_upper = true;
    }
}

fn class_set_case(s: &ast::ClassSet, ci: &mut CaseInfo) {
    match s {
        ast::ClassSet::Item(i) => class_item_case(i, ci),
        ast::ClassSet::BinaryOp(op) => {
            class_set_case(&op.lhs, ci);
            class_set_case(&op.rhs, ci);
        }
    }
}

fn class_item_case(i: &ast::ClassSetItem, ci: &mut CaseInfo) {
    match i {
        ast::ClassSetItem::Literal(l) => lit_case(l, ci),
        ast::ClassSetItem::Range(r) => {
            lit_case(&r.start, ci);
            lit_case(&r.end, ci);
        }
        ast::ClassSetItem::Bracketed(b) => class_set_case(&b.kind, ci),
        ast::ClassSetItem::Union(u) => u.items.iter().for_each(|x| class_item_case(x, ci)),
        _ => {}
    }
}

fn ast_case(a: &Ast, ci: &mut CaseInfo) {
    match a {
        Ast::Literal(l) => lit_case(l, ci),
        Ast::ClassBracketed(b) => class_set_case(&b.kind, ci),
        Ast::Repetition(r) => ast_case(&r.ast, ci),
        Ast::Group(g) => ast_case(&g.ast, ci),
        Ast::Alternation(x) => x.asts.iter().for_each(|y| ast_case(y, ci)),
        Ast::Concat(x) => x.asts.iter().for_each(|y| ast_case(y, ci)),
        _ => {}
    }
}

/// The documented smart-case rule for one pattern: insensitive iff it has
/// at least one literal and no literal is uppercase.
/// Returns None if the pattern does not parse.
pub fn smart_insensitive(pattern: &str, ignore_whitespace: bool) -> Option<bool> {
    let a = ast::parse::ParserBuilder::new().ignore_whitespace(ignore_whitespace).build().parse(pattern).ok()?;
    let mut ci = CaseInfo::default();
    ast_case(&a, &mut ci);
    Some(ci.any_literal && !ci.any_upper)
}

/// Does the pattern text mention a haystack anchor? (`\A`, `\z`, or `^`/`$`
/// outside multi-line mode via `(?-m)`.) Conservative: textual scan.
pub fn mentions_haystack_anchor(p: &str) -> bool {
    p.contains("\\A") || p.contains("\\z") || p.contains("-m") || {
        // flags like (?s-m) / (?-im:
        let b = p.as_bytes();
        let mut i = 0;
        let mut found = false;
        while i + 1 < b.len() {
            if b[i] == b'(' && b[i + 1] == b'?' {
                let mut j = i + 2;
                let mut neg = false;
                while j < b.len() && (b[j].is_ascii_alphabetic() || b[j] == b'-') {
                    if b[j] == b'-' {
                        neg = true;
                    }
                    if b[j] == b'm' && neg {
                        found = true;
                    }
                    j += 1;
                }
            }
            i += 1;
        }
        found
    }
}

pub fn build(pc: &PatCfg) -> Result<LineOracle, OracleErr> {
    if pc.patterns.is_empty() {
        return Err(OracleErr::Excluded("no patterns"));
    }
    let pats: Vec<String> =
        pc.patterns.iter().map(|p| if pc.fixed { regex::escape(p) } else { p.clone() }).collect();
    let case_insensitive = match pc.case {
        CaseMode::Sensitive => false,
        CaseMode::Insensitive => true,
        CaseMode::Smart => {
            let mut verdicts = vec![];
            for p in &pats {
                match smart_insensitive(p, false) {
                    Some(v) => verdicts.push(v),
                    None => return Err(OracleErr::Invalid("pattern does not parse".into())),
                }
            }
            // Patterns without any literal do not vote. If the voters
            // disagree, the rule for the union is undocumented.
            let mut lit_votes = vec![];
            for p in &pats {
                let a = ast::parse::Parser::new().parse(p).map_err(|e| OracleErr::Invalid(e.to_string()))?;
                let mut ci = CaseInfo::default();
                ast_case(&a, &mut ci);
                if ci.any_literal {
                    lit_votes.push(!ci.any_upper);
                }
            }
            if lit_votes.iter().any(|v| *v) && lit_votes.iter().any(|v| !*v) {
                return Err(OracleErr::Excluded("smart case: patterns disagree about upper case"));
            }
            !lit_votes.is_empty() && lit_votes.iter().all(|v| *v)
        }
    };
    let joined = if pats.len() == 1 {
        format!("(?:{})", pats[0])
    } else {
        pats.iter().map(|p| format!("(?:{p})")).collect::<Vec<_>>().join("|")
    };
    let pattern = if pc.whole_line {
        format!("^(?:{joined})$")
    } else if pc.word {
        format!("\\b{{start-half}}(?:{joined})\\b{{end-half}}")
    } else {
        joined
    };
    let crlf = pc.term == Term::Crlf;
    let re = RegexBuilder::new(&pattern)
        .multi_line(true)
        .unicode(pc.unicode)
        .case_insensitive(case_insensitive)
        .crlf(crlf)
        .dot_matches_new_line(pc.multiline && pc.dotall)
        .octal(false)
        .size_limit(100 * (1 << 20))
        .build()
        .map_err(|e| OracleErr::Invalid(e.to_string()))?;
    Ok(LineOracle { re, crlf, pattern, case_insensitive })
}

/// The oracle's verdict on one line.
#[derive(Clone, Copy, Debug, PartialEq, Eq)]
pub enum LineVerdict {
    Match,
    NoMatch,
    /// CRLF mode with a bare CR inside the line: the two defensible readings
    /// (CR is an ordinary byte that the pattern can never match / CR splits
    /// the line for the regex) disagree, so nothing is asserted.
    Ambiguous,
}

impl LineOracle {
    /// `content`: the line without its terminator.
    pub fn verdict(&self, content: &[u8]) -> LineVerdict {
        if self.crlf && content.contains(&b'\r') {
            // Reading 1 (documented): in CRLF mode no match contains CR, CR
            // acts as a line boundary for the regex: evaluate on CR-free
            // segments.
            let seg = content.split(|b| *b == b'\r').any(|s| self.re.is_match(s));
            // Reading 2: match on the whole content but reject matches that
            // contain a CR.
            let whole = self.re.find_iter(content).any(|m| !m.as_bytes().contains(&b'\r'));
            if seg == whole {
                if seg {
                    LineVerdict::Match
                } else {
                    LineVerdict::NoMatch
                }
            } else {
                LineVerdict::Ambiguous
            }
        } else if self.re.is_match(content) {
            LineVerdict::Match
        } else {
            LineVerdict::NoMatch
        }
    }
}
