//! Property runner: drives generated cases (proptest tapes or enumerations)
//! through a check function, accounts for what was explored, shrinks and
//! records failures, matches known findings, writes evidence and replays.

use std::collections::{BTreeMap, HashSet};
use std::hash::{Hash, Hasher};
use std::path::{Path, PathBuf};
use std::sync::atomic::{AtomicBool, AtomicU64, Ordering};
use std::sync::Mutex;
use std::time::Instant;

use proptest::strategy::Strategy;
use proptest::test_runner::{
    Config, RngAlgorithm, TestCaseError, TestError, TestRng, TestRunner,
};
use serde::Serialize;
use serde_json::{json, Value};

use crate::tape::Tape;

/// Root of the verification tree (evidence, replays, known findings). The
/// `check` script exports VERIF_ROOT; the default is /verif.
pub fn verif_root() -> String {
    std::env::var("VERIF_ROOT").unwrap_or_else(|_| "/verif".to_string())
}

#[derive(Clone, Copy, Debug, PartialEq, Eq)]
pub enum Tier {
    Quick,
    Thorough,
}

impl Tier {
    pub fn name(&self) -> &'static str {
        match self {
            Tier::Quick => "quick",
            Tier::Thorough => "thorough",
        }
    }
    /// Pick a work amount by tier.
    pub fn pick<T>(&self, quick: T, thorough: T) -> T {
        match self {
            Tier::Quick => quick,
            Tier::Thorough => thorough,
        }
    }
}

/// The outcome of checking one case.
#[derive(Debug)]
pub enum Verdict {
    Pass(Info),
    /// Outside the property's domain (counted with the reason).
    Reject(&'static str),
    Fail(Fail),
}

#[derive(Debug, Default, Clone)]
pub struct Info {
    pub nontrivial: bool,
    pub classes: Vec<&'static str>,
}

impl Info {
    pub fn new(nontrivial: bool) -> Info {
        Info { nontrivial, classes: vec![] }
    }
    pub fn class(&mut self, c: &'static str) {
        if !self.classes.contains(&c) {
            self.classes.push(c);
        }
    }
    pub fn class_if(&mut self, cond: bool, c: &'static str) {
        if cond {
            self.class(c);
        }
    }
}

#[derive(Debug, Clone)]
pub struct Fail {
    /// Human-readable explanation: expected vs observed.
    pub detail: String,
    /// Facts about the failure for the known-finding classifiers.
    pub facts: Vec<String>,
}

impl Fail {
    pub fn new(detail: impl Into<String>) -> Fail {
        Fail { detail: detail.into(), facts: vec![] }
    }
    pub fn fact(mut self, f: impl Into<String>) -> Fail {
        self.facts.push(f.into());
        self
    }
}

/// A confirmed failing case ready to be reported.
#[derive(Debug, Clone)]
pub struct Failure {
    pub subcheck: String,
    pub case: Value,
    pub detail: String,
}

/// A known finding as listed in /verif/known_findings.json.
#[derive(Debug, Clone)]
pub struct Known {
    pub id: String,
    pub property: String,
    pub what: String,
    /// Every listed fact must be among the failure's facts.
    pub facts: Vec<String>,
}

pub struct PropCtx {
    pub property: &'static str,
    pub level: &'static str,
    pub tier: Tier,
    pub seed: u64,
    pub threads: usize,
    start: Instant,
    evaluations: AtomicU64,
    nontrivial: Mutex<HashSet<u64>>,
    nontrivial_bulk: AtomicU64,
    classes: Mutex<BTreeMap<String, u64>>,
    rejects: Mutex<BTreeMap<String, u64>>,
    samples: Mutex<Vec<Value>>,
    rules: Mutex<Vec<String>>,
    bounds: Mutex<BTreeMap<String, Value>>,
    assumptions: Mutex<Vec<String>>,
    subchecks: Mutex<Vec<Value>>,
    known: Vec<Known>,
    known_hits: Mutex<BTreeMap<String, u64>>,
    failures: Mutex<Vec<Failure>>,
    notes: Mutex<Vec<String>>,
    exhaustive: AtomicBool,
    inconclusive: Mutex<Vec<String>>,
    /// Strict mode (replay): known findings are not tolerated silently.
    pub strict: bool,
    /// Shrinking budget per failing worker (process-spawning checks lower it).
    pub shrink_iters: std::sync::atomic::AtomicU32,
}

fn hash_value<T: Hash>(v: &T) -> u64 {
    let mut h = std::collections::hash_map::DefaultHasher::new();
    v.hash(&mut h);
    h.finish()
}

pub fn mix_seed(seed: u64, property: &str, sub: &str, worker: u64) -> [u8; 32] {
    // splitmix64 over a simple fold of the inputs; deterministic across runs.
    let mut x = seed ^ 0x9E3779B97F4A7C15;
    for b in property.bytes().chain([0u8]).chain(sub.bytes()) {
        x = (x ^ b as u64).wrapping_mul(0x100000001B3);
    }
    x ^= worker.wrapping_mul(0xD6E8FEB86659FD93);
    let mut out = [0u8; 32];
    for i in 0..4 {
        x = x.wrapping_add(0x9E3779B97F4A7C15);
        let mut z = x;
        z = (z ^ (z >> 30)).wrapping_mul(0xBF58476D1CE4E5B9);
        z = (z ^ (z >> 27)).wrapping_mul(0x94D049BB133111EB);
        z ^= z >> 31;
        out[i * 8..i * 8 + 8].copy_from_slice(&z.to_le_bytes());
    }
    out
}

impl PropCtx {
    pub fn new(property: &'static str, level: &'static str, tier: Tier, seed: u64) -> PropCtx {
        let threads = std::env::var("VERIF_THREADS")
            .ok()
            .and_then(|s| s.parse().ok())
            .unwrap_or_else(|| {
                std::thread::available_parallelism().map(|n| n.get()).unwrap_or(4).min(16)
            });
        let known = load_known(property);
        PropCtx {
            property,
            level,
            tier,
            seed,
            threads,
            start: Instant::now(),
            evaluations: AtomicU64::new(0),
            nontrivial: Mutex::new(HashSet::new()),
            nontrivial_bulk: AtomicU64::new(0),
            classes: Mutex::new(BTreeMap::new()),
            rejects: Mutex::new(BTreeMap::new()),
            samples: Mutex::new(vec![]),
            rules: Mutex::new(vec![]),
            bounds: Mutex::new(BTreeMap::new()),
            assumptions: Mutex::new(vec![]),
            subchecks: Mutex::new(vec![]),
            known,
            known_hits: Mutex::new(BTreeMap::new()),
            failures: Mutex::new(vec![]),
            notes: Mutex::new(vec![]),
            exhaustive: AtomicBool::new(false),
            inconclusive: Mutex::new(vec![]),
            strict: false,
            shrink_iters: std::sync::atomic::AtomicU32::new(4000),
        }
    }

    pub fn set_shrink_iters(&self, n: u32) {
        self.shrink_iters.store(n, Ordering::Relaxed);
    }
    pub fn rule(&self, text: &str) {
        self.rules.lock().unwrap().push(text.to_string());
    }
    pub fn assume(&self, text: &str) {
        self.assumptions.lock().unwrap().push(text.to_string());
    }
    pub fn bound(&self, key: &str, v: Value) {
        self.bounds.lock().unwrap().insert(key.to_string(), v);
    }
    pub fn note(&self, text: impl Into<String>) {
        self.notes.lock().unwrap().push(text.into());
    }
    pub fn set_exhaustive(&self, yes: bool) {
        self.exhaustive.store(yes, Ordering::SeqCst);
    }
    pub fn inconclusive(&self, why: impl Into<String>) {
        self.inconclusive.lock().unwrap().push(why.into());
    }
    pub fn has_failure(&self) -> bool {
        !self.failures.lock().unwrap().is_empty()
    }
    pub fn class_count(&self, c: &str) -> u64 {
        self.classes.lock().unwrap().get(c).copied().unwrap_or(0)
    }
    pub fn evaluations(&self) -> u64 {
        self.evaluations.load(Ordering::SeqCst)
    }
    pub fn add_evaluations(&self, n: u64) {
        self.evaluations.fetch_add(n, Ordering::SeqCst);
    }
    pub fn count_class(&self, c: &str, n: u64) {
        *self.classes.lock().unwrap().entry(c.to_string()).or_insert(0) += n;
    }

    /// Bulk accounting for enumerations whose cases are distinct by
    /// construction (no per-case hashing/serialisation).
    pub fn add_bulk(&self, sub: &str, evals: u64, distinct_nontrivial: u64, classes: &[(&str, u64)]) {
        self.evaluations.fetch_add(evals, Ordering::Relaxed);
        self.nontrivial_bulk.fetch_add(distinct_nontrivial, Ordering::Relaxed);
        let mut cl = self.classes.lock().unwrap();
        for (c, n) in classes {
            if *n > 0 {
                *cl.entry(format!("{sub}:{c}")).or_insert(0) += n;
            }
        }
    }

    pub fn add_sample(&self, sub: &str, v: Value) {
        let mut s = self.samples.lock().unwrap();
        let per_sub = s.iter().filter(|x| x["subcheck"] == sub).count();
        if per_sub < 3 {
            s.push(json!({"subcheck": sub, "case": v}));
        }
    }

    pub fn add_subcheck_summary(&self, v: Value) {
        self.subchecks.lock().unwrap().push(v);
    }

    /// Record a passing case.
    pub fn record_pass<C: Serialize>(&self, sub: &str, case: &C, info: &Info) {
        self.evaluations.fetch_add(1, Ordering::Relaxed);
        {
            let mut cl = self.classes.lock().unwrap();
            for c in &info.classes {
                *cl.entry(format!("{sub}:{c}")).or_insert(0) += 1;
            }
        }
        if info.nontrivial {
            let v = serde_json::to_value(case).unwrap_or(Value::Null);
            let h = hash_value(&(sub, v.to_string()));
            let fresh = self.nontrivial.lock().unwrap().insert(h);
            if fresh {
                let mut s = self.samples.lock().unwrap();
                let per_sub = s.iter().filter(|x| x["subcheck"] == sub).count();
                if per_sub < 3 {
                    s.push(json!({"subcheck": sub, "case": v, "classes": info.classes}));
                }
            }
        }
    }

    pub fn record_reject(&self, sub: &str, why: &str) {
        *self.rejects.lock().unwrap().entry(format!("{sub}:{why}")).or_insert(0) += 1;
    }

    /// Does a listed known finding explain this failure?
    pub fn match_known(&self, f: &Fail) -> Option<&Known> {
        self.known.iter().find(|k| {
            !k.facts.is_empty() && k.facts.iter().all(|kf| f.facts.iter().any(|ff| ff == kf))
        })
    }

    pub fn record_known(&self, k: &Known) {
        *self.known_hits.lock().unwrap().entry(k.id.clone()).or_insert(0) += 1;
    }

    pub fn record_failure(&self, f: Failure) {
        self.failures.lock().unwrap().push(f);
    }

    /// Turn a failing verdict into a reportable failure unless a listed
    /// known finding explains it.
    pub fn triage<C: Serialize>(&self, sub: &str, case: &C, f: Fail) -> Option<Failure> {
        if !self.strict {
            if let Some(k) = self.match_known(&f) {
                self.record_known(k);
                self.evaluations.fetch_add(1, Ordering::Relaxed);
                return None;
            }
        }
        Some(Failure {
            subcheck: sub.to_string(),
            case: serde_json::to_value(case).unwrap_or(Value::Null),
            detail: f.detail,
        })
    }

    /// Handle a verdict from a non-proptest driver (enumeration / replay).
    /// Returns false when a (non-known) failure was recorded.
    pub fn absorb<C: Serialize>(&self, sub: &str, case: &C, v: Verdict) -> bool {
        match v {
            Verdict::Pass(info) => {
                self.record_pass(sub, case, &info);
                true
            }
            Verdict::Reject(why) => {
                self.record_reject(sub, why);
                true
            }
            Verdict::Fail(f) => {
                if !self.strict {
                    if let Some(k) = self.match_known(&f) {
                        self.record_known(k);
                        self.evaluations.fetch_add(1, Ordering::Relaxed);
                        return true;
                    }
                }
                self.record_failure(Failure {
                    subcheck: sub.to_string(),
                    case: serde_json::to_value(case).unwrap_or(Value::Null),
                    detail: f.detail,
                });
                false
            }
        }
    }

    /// Run `cases` generated cases of one subcheck, spread over the worker
    /// threads. `decode` turns a choice tape into a case; `check` decides it.
    /// On failure the tape is shrunk by proptest and the shrunk case recorded.
    pub fn run_tape<C, D, K>(
        &self,
        sub: &str,
        cases: u32,
        tape_len: (usize, usize),
        decode: D,
        check: K,
    ) where
        C: Serialize + Clone + Send + std::fmt::Debug,
        D: Fn(&mut Tape) -> C + Sync,
        K: Fn(&C) -> Verdict + Sync,
    {
        if self.has_failure() {
            return;
        }
        let t0 = Instant::now();
        let before = self.evaluations();
        let abort = AtomicBool::new(false);
        let workers = self.threads.max(1).min(cases.max(1) as usize);
        let found: Mutex<Vec<(usize, Failure)>> = Mutex::new(vec![]);
        std::thread::scope(|s| {
            for w in 0..workers {
                let decode = &decode;
                let check = &check;
                let abort = &abort;
                let found = &found;
                let n = cases / workers as u32 + if (w as u32) < cases % workers as u32 { 1 } else { 0 };
                let builder = std::thread::Builder::new().stack_size(64 << 20);
                builder.spawn_scoped(s, move || {
                    let cfg = Config {
                        cases: n,
                        failure_persistence: None,
                        max_shrink_iters: self.shrink_iters.load(Ordering::Relaxed),
                        max_global_rejects: u32::MAX,
                        max_local_rejects: u32::MAX,
                        ..Config::default()
                    };
                    let rng = TestRng::from_seed(
                        RngAlgorithm::ChaCha,
                        &mix_seed(self.seed, self.property, sub, w as u64),
                    );
                    let mut runner = TestRunner::new_with_rng(cfg, rng);
                    let strat = proptest::collection::vec(
                        proptest::num::u32::ANY,
                        tape_len.0..=tape_len.1,
                    );
                    let failed = std::cell::Cell::new(false);
                    // every case that failed on the way down (successively smaller), for the fallback below
                    let trail: std::cell::RefCell<Vec<C>> = std::cell::RefCell::new(vec![]);
                    let res = runner.run(&strat, |tape| {
                        if abort.load(Ordering::Relaxed) && !failed.get() {
                            return Ok(());
                        }
                        let mut t = Tape::new(&tape);
                        let case = decode(&mut t);
                        match check(&case) {
                            Verdict::Pass(info) => {
                                if !failed.get() {
                                    self.record_pass(sub, &case, &info);
                                }
                                Ok(())
                            }
                            Verdict::Reject(why) => {
                                if !failed.get() {
                                    self.record_reject(sub, why);
                                    // Count as handled; do not ask proptest
                                    // to regenerate (keeps work fixed).
                                    Ok(())
                                } else {
                                    Err(TestCaseError::reject(why))
                                }
                            }
                            Verdict::Fail(f) => {
                                if let Some(k) = self.match_known(&f) {
                                    if !failed.get() {
                                        self.record_known(k);
                                        self.evaluations.fetch_add(1, Ordering::Relaxed);
                                    }
                                    // A known finding is not what we shrink toward.
                                    return Ok(());
                                }
                                failed.set(true);
                                abort.store(true, Ordering::Relaxed);
                                trail.borrow_mut().push(case.clone());
                                Err(TestCaseError::fail(f.detail))
                            }
                        }
                    });
                    if let Err(TestError::Fail(_, tape)) = res {
                        let mut t = Tape::new(&tape);
                        let mut case = decode(&mut t);
                        // Re-confirm from the shrunk case itself. When the failure depends on timing the
                        // shrinker may have ended on a borderline case: fall back to the larger cases that
                        // failed on the way down (most recent first), and report the first one that fails
                        // again. Whatever is reported failed at least twice; nothing is reported otherwise.
                        let mut detail = match check(&case) {
                            Verdict::Fail(f) => f.detail,
                            other => format!(
                                "UNSTABLE: shrunk case no longer fails on re-execution ({other:?})"
                            ),
                        };
                        if detail.starts_with("UNSTABLE") {
                            let trail = trail.into_inner();
                            'fallback: for earlier in trail.iter().rev().take(40) {
                                for _ in 0..2 {
                                    if let Verdict::Fail(f) = check(earlier) {
                                        if self.match_known(&f).is_none() {
                                            detail = format!("{}\n (shrinking was unstable: a smaller case failed once and then passed; this larger case failed again on re-execution)", f.detail);
                                            case = earlier.clone();
                                            break 'fallback;
                                        }
                                    }
                                }
                            }
                        }
                        let size = serde_json::to_string(&case).map(|s| s.len()).unwrap_or(0);
                        found.lock().unwrap().push((
                            size,
                            Failure {
                                subcheck: sub.to_string(),
                                case: serde_json::to_value(&case).unwrap_or(Value::Null),
                                detail,
                            },
                        ));
                    } else if let Err(TestError::Abort(why)) = res {
                        self.inconclusive(format!("{sub}: proptest aborted: {why}"));
                    }
                }).expect("spawn worker");
            }
        });
        let mut found = found.into_inner().unwrap();
        found.sort_by_key(|(size, _)| *size);
        if let Some((_, f)) = found.into_iter().next() {
            if f.detail.starts_with("UNSTABLE") {
                self.inconclusive(format!("{}: {}", f.subcheck, f.detail));
            } else {
                self.record_failure(f);
            }
        }
        self.subchecks.lock().unwrap().push(json!({
            "subcheck": sub,
            "engine": "proptest tape",
            "requested_cases": cases,
            "evaluations": self.evaluations() - before,
            "wall_s": t0.elapsed().as_secs_f64(),
        }));
    }

    /// Run an explicit list/iterator of cases (enumeration), in parallel
    /// chunks, stopping at the first failure in enumeration order.
    pub fn run_enum<C, I, K>(&self, sub: &str, cases: I, check: K)
    where
        C: Serialize + Clone + Send + Sync + std::fmt::Debug,
        I: Iterator<Item = C>,
        K: Fn(&C) -> Verdict + Sync,
    {
        if self.has_failure() {
            return;
        }
        let t0 = Instant::now();
        let before = self.evaluations();
        let mut iter = cases;
        let chunk = 4096 * self.threads.max(1);
        let mut total = 0u64;
        loop {
            let batch: Vec<C> = iter.by_ref().take(chunk).collect();
            if batch.is_empty() {
                break;
            }
            total += batch.len() as u64;
            let first_fail: Mutex<Option<(usize, Fail)>> = Mutex::new(None);
            let next = std::sync::atomic::AtomicUsize::new(0);
            std::thread::scope(|s| {
                for _ in 0..self.threads.max(1) {
                    let builder = std::thread::Builder::new().stack_size(64 << 20);
                    builder
                        .spawn_scoped(s, || loop {
                            let i = next.fetch_add(64, Ordering::Relaxed);
                            if i >= batch.len() {
                                break;
                            }
                            for j in i..(i + 64).min(batch.len()) {
                                {
                                    let ff = first_fail.lock().unwrap();
                                    if let Some((k, _)) = &*ff {
                                        if *k < j {
                                            return;
                                        }
                                    }
                                }
                                match check(&batch[j]) {
                                    Verdict::Pass(info) => self.record_pass(sub, &batch[j], &info),
                                    Verdict::Reject(why) => self.record_reject(sub, why),
                                    Verdict::Fail(f) => {
                                        if let Some(k) = self.match_known(&f) {
                                            self.record_known(k);
                                            self.evaluations.fetch_add(1, Ordering::Relaxed);
                                            continue;
                                        }
                                        let mut ff = first_fail.lock().unwrap();
                                        let better = match &*ff {
                                            None => true,
                                            Some((k, _)) => j < *k,
                                        };
                                        if better {
                                            *ff = Some((j, f));
                                        }
                                        return;
                                    }
                                }
                            }
                        })
                        .expect("spawn worker");
                }
            });
            if let Some((j, f)) = first_fail.into_inner().unwrap() {
                self.record_failure(Failure {
                    subcheck: sub.to_string(),
                    case: serde_json::to_value(&batch[j]).unwrap_or(Value::Null),
                    detail: f.detail,
                });
                break;
            }
        }
        self.subchecks.lock().unwrap().push(json!({
            "subcheck": sub,
            "engine": "enumeration",
            "enumerated": total,
            "evaluations": self.evaluations() - before,
            "wall_s": t0.elapsed().as_secs_f64(),
        }));
    }

    /// Run independent jobs on the worker threads; a job returns a failure to
    /// stop everything. Jobs are taken in order, so with one thread the first
    /// failure is the first in enumeration order.
    pub fn par_jobs<J: Sync, F: Fn(&J) -> Option<Failure> + Sync>(&self, jobs: &[J], f: F) {
        if self.has_failure() {
            return;
        }
        let next = std::sync::atomic::AtomicUsize::new(0);
        let stop = AtomicBool::new(false);
        std::thread::scope(|s| {
            for _ in 0..self.threads.max(1).min(jobs.len().max(1)) {
                let builder = std::thread::Builder::new().stack_size(64 << 20);
                builder
                    .spawn_scoped(s, || loop {
                        if stop.load(Ordering::Relaxed) {
                            break;
                        }
                        let i = next.fetch_add(1, Ordering::Relaxed);
                        if i >= jobs.len() {
                            break;
                        }
                        if let Some(fail) = f(&jobs[i]) {
                            stop.store(true, Ordering::Relaxed);
                            // keep only the smallest failure
                            let mut fs = self.failures.lock().unwrap();
                            let size = fail.case.to_string().len();
                            if fs.is_empty() {
                                fs.push(fail);
                            } else if size < fs[0].case.to_string().len() {
                                fs[0] = fail;
                            }
                            break;
                        }
                    })
                    .expect("spawn worker");
            }
        });
    }

    /// Thorough tier: a fixed-work libFuzzer campaign on the in-process
    /// subcheck `target` ("C01:line_match"), through the `fz` target of
    /// /verif/harness/fuzz (same generators, same oracle, coverage guided).
    /// A crash is believed only after `confirm` re-executes the saved case.
    /// If the nightly fuzz build is unavailable this is recorded as a note.
    pub fn run_fuzz(&self, target: &str, runs: u64, max_len: usize, confirm: &dyn Fn(&Value) -> Verdict) {
        if self.has_failure() {
            return;
        }
        let t0 = Instant::now();
        let root = verif_root();
        let harness = format!("{root}/harness");
        let corpus = PathBuf::from(&root).join("out").join("fuzz").join(target.replace(':', "_"));
        let _ = std::fs::remove_dir_all(&corpus);
        let _ = std::fs::create_dir_all(&corpus);
        // seed corpus: a few pseudo-random tapes derived from the seed
        for i in 0..8u64 {
            let mut bytes = vec![];
            let mut k = 0u64;
            while bytes.len() < max_len / 2 {
                bytes.extend_from_slice(&mix_seed(self.seed, target, "corpus", i * 1000 + k));
                k += 1;
            }
            let _ = std::fs::write(corpus.join(format!("seed{i}")), &bytes);
        }
        let out = std::process::Command::new("cargo")
            .current_dir(&harness)
            .env("CARGO_NET_OFFLINE", "true")
            .env("VERIF_FUZZ_TARGET", target)
            .env("VERIF_ROOT", &root)
            .args(["+nightly", "fuzz", "run", "fz"])
            .arg(&corpus)
            .arg("--")
            .arg(format!("-runs={runs}"))
            // backstop only: the campaign is fixed work (-runs); when a campaign of slow executions would
            // outlast this, it ends early and the evidence shows executions < requested_runs
            .arg("-max_total_time=1500")
            .arg(format!("-seed={}", (self.seed % 0xFFFF_FFFF).max(1)))
            .arg("-len_control=0")
            .arg(format!("-max_len={max_len}"))
            .arg("-print_final_stats=1")
            .arg(format!("-artifact_prefix={}/", corpus.display()))
            .output();
        let sub = format!("fuzz:{target}");
        let out = match out {
            Ok(o) => o,
            Err(e) => {
                self.note(format!("{sub}: could not start cargo fuzz: {e}"));
                return;
            }
        };
        let err = String::from_utf8_lossy(&out.stderr).to_string();
        let execs = err
            .lines()
            .find_map(|l| l.strip_prefix("stat::number_of_executed_units:").and_then(|x| x.trim().parse::<u64>().ok()))
            .unwrap_or(0);
        let cov = err.lines().rev().find_map(|l| {
            let i = l.find(" cov: ")?;
            l[i + 6..].split_whitespace().next()?.parse::<u64>().ok()
        });
        if let Some(line) = err.lines().find(|l| l.starts_with("FUZZ-FAILURE replay=")) {
            let path = line.trim_start_matches("FUZZ-FAILURE replay=").trim().to_string();
            let v: Option<Value> = std::fs::read_to_string(&path).ok().and_then(|t| serde_json::from_str(&t).ok());
            if let Some(v) = v {
                match confirm(&v["case"]) {
                    Verdict::Fail(f) => {
                        if self.match_known(&f).is_none() {
                            self.record_failure(Failure { subcheck: v["subcheck"].as_str().unwrap_or("").to_string(), case: v["case"].clone(), detail: format!("found by libFuzzer ({target}):\n{}", f.detail) });
                        }
                    }
                    _ => self.inconclusive(format!("{sub}: the fuzzer reported a failure ({path}) that does not reproduce in a fresh execution")),
                }
            }
        } else if !out.status.success() {
            if execs == 0 {
                self.note(format!("{sub}: cargo +nightly fuzz did not run (build unavailable?): {}", err.lines().rev().take(3).collect::<Vec<_>>().join(" | ")));
            } else {
                self.inconclusive(format!("{sub}: fuzz target ended abnormally after {execs} executions without a semantic failure (crash/OOM/timeout): {}", err.lines().rev().take(5).collect::<Vec<_>>().join(" | ")));
            }
        }
        self.evaluations.fetch_add(execs, Ordering::Relaxed);
        self.subchecks.lock().unwrap().push(json!({
            "subcheck": sub,
            "engine": "libFuzzer (cargo +nightly fuzz run fz), bytes = choice tape, oracle inside the target",
            "requested_runs": runs,
            "time_cap_s": 1500,
            "executions": execs,
            "coverage_edges": cov,
            "wall_s": t0.elapsed().as_secs_f64(),
        }));
        let _ = std::fs::remove_dir_all(&corpus);
    }

    /// Require that a class was produced at least `min` times; otherwise the
    /// run is inconclusive (a generator that stopped producing the shape that
    /// matters is a broken check, not a pass).
    pub fn require_class(&self, class: &str, min: u64) {
        let n = self.class_count(class);
        if n < min && !self.has_failure() {
            self.inconclusive(format!("class {class} produced {n} times, floor is {min}"));
        }
    }

    /// Write evidence, print findings and return the process exit code.
    pub fn finish(&self) -> i32 {
        let failures = self.failures.lock().unwrap().clone();
        let known_hits = self.known_hits.lock().unwrap().clone();
        for k in &self.known {
            if let Some(n) = known_hits.get(&k.id) {
                println!("KNOWN-FINDING: property={} {} [{}; hit {} times this run]", self.property, k.what, k.id, n);
            }
        }
        let mut replay_paths = vec![];
        for (i, f) in failures.iter().enumerate() {
            let dir = PathBuf::from(verif_root()).join("out").join("replays").join(self.property);
            let _ = std::fs::create_dir_all(&dir);
            let h = hash_value(&f.case.to_string());
            let path = dir.join(format!("{}-{}-{:016x}-{}.json", self.property, f.subcheck, h, i));
            let body = json!({
                "property": self.property,
                "subcheck": f.subcheck,
                "case": f.case,
                "detail": f.detail,
                "seed": self.seed,
                "tier": self.tier.name(),
            });
            let _ = std::fs::write(&path, serde_json::to_string_pretty(&body).unwrap());
            println!("--- failure in {} / {} ---\n{}", self.property, f.subcheck, f.detail);
            println!("VIOLATION property={} replay={}", self.property, path.display());
            replay_paths.push(path.display().to_string());
        }
        let inconclusive = self.inconclusive.lock().unwrap().clone();
        let nontrivial = self.nontrivial.lock().unwrap().len() as u64
            + self.nontrivial_bulk.load(Ordering::SeqCst);
        let mut coverage = json!({
            "evaluations": self.evaluations(),
            "distinct_nontrivial": nontrivial,
            "rule": self.rules.lock().unwrap().join(" | "),
            "samples": *self.samples.lock().unwrap(),
            "classes": *self.classes.lock().unwrap(),
            "rejected": *self.rejects.lock().unwrap(),
            "bounds": *self.bounds.lock().unwrap(),
            "subchecks": *self.subchecks.lock().unwrap(),
            "known_findings_hit": known_hits,
            "notes": *self.notes.lock().unwrap(),
            "inconclusive": inconclusive,
            "replays_written": replay_paths,
            "threads": self.threads,
        });
        if self.exhaustive.load(Ordering::SeqCst) {
            coverage["exhaustive"] = json!(true);
        }
        let ev = json!({
            "property_id": self.property,
            "tier": self.tier.name(),
            "seed": self.seed,
            "level": self.level,
            "coverage": coverage,
            "assumptions": *self.assumptions.lock().unwrap(),
            "wall_s": self.start.elapsed().as_secs_f64(),
            "violations": failures.len(),
        });
        if !self.strict {
            let dir = Path::new(&verif_root()).join("evidence");
            let _ = std::fs::create_dir_all(&dir);
            let path = dir.join(format!("{}.json", self.property));
            if let Err(e) = std::fs::write(&path, serde_json::to_string_pretty(&ev).unwrap()) {
                eprintln!("cannot write evidence {}: {e}", path.display());
            }
        }
        println!(
            "{} {}: evaluations={} distinct_nontrivial={} violations={} known_hits={} wall={:.1}s",
            self.property,
            self.tier.name(),
            self.evaluations(),
            nontrivial,
            failures.len(),
            known_hits.values().sum::<u64>(),
            self.start.elapsed().as_secs_f64()
        );
        if !failures.is_empty() {
            return 1;
        }
        if !inconclusive.is_empty() {
            for w in &inconclusive {
                println!("INCONCLUSIVE property={} {}", self.property, w);
            }
            return 2;
        }
        0
    }
}

/// Load the `known` entries for a property from /verif/known_findings.json.
fn load_known(property: &str) -> Vec<Known> {
    let path = Path::new(&verif_root()).join("known_findings.json");
    let Ok(text) = std::fs::read_to_string(&path) else { return vec![] };
    let Ok(v) = serde_json::from_str::<Value>(&text) else {
        eprintln!("known_findings.json does not parse; ignoring");
        return vec![];
    };
    let mut out = vec![];
    for e in v["findings"].as_array().cloned().unwrap_or_default() {
        if e["status"] != "known" || e["property"] != property {
            continue;
        }
        out.push(Known {
            id: e["id"].as_str().unwrap_or("").to_string(),
            property: property.to_string(),
            what: e["what"].as_str().unwrap_or("").to_string(),
            facts: e["facts"]
                .as_array()
                .map(|a| a.iter().filter_map(|x| x.as_str().map(String::from)).collect())
                .unwrap_or_default(),
        });
    }
    out
}

/// Use a proptest strategy directly (for the few generators that are not
/// tape based). Kept for completeness of the engine.
pub fn _strategy_marker<S: Strategy>(_s: S) {}

pub fn hex(bytes: &[u8]) -> String {
    let mut s = String::with_capacity(bytes.len() * 2);
    for b in bytes {
        s.push_str(&format!("{b:02x}"));
    }
    s
}

/// Render bytes for humans: printable ASCII as is, the rest escaped.
pub fn show(bytes: &[u8]) -> String {
    let mut s = String::new();
    for &b in bytes {
        match b {
            b'\n' => s.push_str("\\n"),
            b'\r' => s.push_str("\\r"),
            b'\t' => s.push_str("\\t"),
            b'\\' => s.push_str("\\\\"),
            0x20..=0x7e => s.push(b as char),
            _ => s.push_str(&format!("\\x{b:02X}")),
        }
    }
    s
}
