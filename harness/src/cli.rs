//! CLI driver: runs the `rg` binary built from /repo's working tree (without
//! hooks) in an isolated environment and captures what it did.

use std::ffi::OsString;
use std::io::{Read, Write};
use std::os::unix::process::CommandExt;
use std::path::{Path, PathBuf};
use std::process::{Command, Stdio};
use std::time::{Duration, Instant};

/// The rg binary built from /repo's working tree by the `check` script
/// (overridable with VERIF_RG for scratch copies).
pub fn rg_path() -> String {
    std::env::var("VERIF_RG").unwrap_or_else(|_| format!("{}/target/rg/debug/rg", crate::runner::verif_root()))
}

/// A second rg binary built with `--features ignore/verif-hooks`: with the
/// environment variable VERIF_YIELD_JITTER set it sleeps pseudo-randomly at
/// the parallel walker's synchronisation points (timing perturbation for
/// C08). Falls back to the ordinary binary when it has not been built.
pub fn rg_jitter_path() -> String {
    let p = std::env::var("VERIF_RG_JITTER").unwrap_or_else(|_| format!("{}/target/rg-jitter/debug/rg", crate::runner::verif_root()));
    if std::path::Path::new(&p).exists() {
        p
    } else {
        rg_path()
    }
}

#[derive(Debug, Clone)]
pub struct Out {
    /// exit status; None if killed by a signal or by the watchdog
    pub status: Option<i32>,
    pub stdout: Vec<u8>,
    pub stderr: Vec<u8>,
    pub timed_out: bool,
    pub wall: Duration,
}

pub struct Rg {
    args: Vec<OsString>,
    cwd: PathBuf,
    stdin: Option<Vec<u8>>,
    envs: Vec<(String, String)>,
    /// run as nobody (uid/gid 65534) so that mode-000 files are unreadable
    drop_uid: bool,
    timeout: Duration,
    /// close our end of stdout after reading this many bytes
    close_stdout_after: Option<usize>,
    /// wait this long before the first read of stdout (a consumer that falls behind)
    read_delay: Option<Duration>,
    program: String,
}

impl Rg {
    pub fn new(cwd: &Path) -> Rg {
        Rg {
            args: vec![],
            cwd: cwd.to_path_buf(),
            stdin: None,
            envs: vec![],
            drop_uid: false,
            timeout: Duration::from_secs(20),
            close_stdout_after: None,
            read_delay: None,
            program: rg_path(),
        }
    }
    pub fn program(mut self, p: &str) -> Rg {
        self.program = p.to_string();
        self
    }
    pub fn arg<S: Into<OsString>>(mut self, a: S) -> Rg {
        self.args.push(a.into());
        self
    }
    pub fn args<I, S>(mut self, it: I) -> Rg
    where
        I: IntoIterator<Item = S>,
        S: Into<OsString>,
    {
        for a in it {
            self.args.push(a.into());
        }
        self
    }
    pub fn stdin(mut self, data: Vec<u8>) -> Rg {
        self.stdin = Some(data);
        self
    }
    pub fn env(mut self, k: &str, v: &str) -> Rg {
        self.envs.push((k.to_string(), v.to_string()));
        self
    }
    pub fn drop_uid(mut self, yes: bool) -> Rg {
        self.drop_uid = yes;
        self
    }
    pub fn timeout(mut self, d: Duration) -> Rg {
        self.timeout = d;
        self
    }
    pub fn close_stdout_after(mut self, n: usize) -> Rg {
        self.close_stdout_after = Some(n);
        self
    }
    pub fn read_delay(mut self, d: Duration) -> Rg {
        self.read_delay = Some(d);
        self
    }
    pub fn cmdline(&self) -> String {
        let mut s = String::from("rg");
        for a in &self.args {
            s.push(' ');
            let a = a.to_string_lossy();
            if a.chars().all(|c| c.is_ascii_alphanumeric() || "-_=./".contains(c)) && !a.is_empty() {
                s.push_str(&a);
            } else {
                s.push('\'');
                s.push_str(&a.replace('\'', "'\\''"));
                s.push('\'');
            }
        }
        s
    }

    pub fn run(self) -> Out {
        let t0 = Instant::now();
        let mut cmd = Command::new(&self.program);
        cmd.args(&self.args)
            .current_dir(&self.cwd)
            .env_clear()
            .env("PATH", "/usr/local/bin:/usr/bin:/bin")
            .env("HOME", &self.cwd)
            .env("XDG_CONFIG_HOME", self.cwd.join(".xdg-none"))
            .env("GIT_CONFIG_NOSYSTEM", "1")
            .env("LC_ALL", "C")
            .env("TERM", "dumb")
            .stdin(if self.stdin.is_some() { Stdio::piped() } else { Stdio::null() })
            .stdout(Stdio::piped())
            .stderr(Stdio::piped());
        for (k, v) in &self.envs {
            cmd.env(k, v);
        }
        if self.drop_uid {
            cmd.uid(65534).gid(65534);
        }
        let mut child = match cmd.spawn() {
            Ok(c) => c,
            Err(e) => {
                return Out {
                    status: None,
                    stdout: vec![],
                    stderr: format!("spawn failed: {e}").into_bytes(),
                    timed_out: false,
                    wall: t0.elapsed(),
                }
            }
        };
        let stdin_thread = self.stdin.map(|data| {
            let mut si = child.stdin.take().unwrap();
            std::thread::spawn(move || {
                let _ = si.write_all(&data);
            })
        });
        let mut so = child.stdout.take().unwrap();
        let mut se = child.stderr.take().unwrap();
        let close_after = self.close_stdout_after;
        let read_delay = self.read_delay;
        let out_thread = std::thread::spawn(move || {
            let mut buf = vec![];
            if let Some(d) = read_delay {
                std::thread::sleep(d);
            }
            match close_after {
                None => {
                    let _ = so.read_to_end(&mut buf);
                }
                Some(n) => {
                    let mut chunk = [0u8; 4096];
                    while buf.len() < n {
                        let want = (n - buf.len()).min(chunk.len());
                        match so.read(&mut chunk[..want]) {
                            Ok(0) | Err(_) => break,
                            Ok(k) => buf.extend_from_slice(&chunk[..k]),
                        }
                    }
                    drop(so); // closes the read end: the writer gets EPIPE
                }
            }
            buf
        });
        let err_thread = std::thread::spawn(move || {
            let mut buf = vec![];
            let _ = se.read_to_end(&mut buf);
            buf
        });
        let mut timed_out = false;
        let status = loop {
            match child.try_wait() {
                Ok(Some(st)) => break st.code(),
                Ok(None) => {
                    if t0.elapsed() > self.timeout {
                        timed_out = true;
                        let _ = child.kill();
                        let _ = child.wait();
                        break None;
                    }
                    std::thread::sleep(Duration::from_micros(300));
                }
                Err(_) => break None,
            }
        };
        if let Some(t) = stdin_thread {
            let _ = t.join();
        }
        let stdout = out_thread.join().unwrap_or_default();
        let stderr = err_thread.join().unwrap_or_default();
        Out { status, stdout, stderr, timed_out, wall: t0.elapsed() }
    }
}

/// A scratch directory under $TMPDIR (default /tmp), removed on drop.
pub struct TempDir {
    pub path: PathBuf,
}

impl TempDir {
    pub fn new(tag: &str) -> TempDir {
        let path = crate::sea::scratch_path(tag);
        std::fs::create_dir_all(&path).expect("create scratch dir");
        TempDir { path }
    }
    /// A scratch directory on tmpfs (/dev/shm) when available: creating and
    /// removing small trees there is several times faster than on /tmp.
    pub fn fast(tag: &str) -> TempDir {
        if std::env::var_os("VERIF_SCRATCH_ON_TMPDIR").is_none() && Path::new("/dev/shm").is_dir() {
            TempDir::new_in("/dev/shm", tag)
        } else {
            TempDir::new(tag)
        }
    }
    pub fn new_in(base: &str, tag: &str) -> TempDir {
        let p = crate::sea::scratch_path(tag);
        let path = Path::new(base).join(p.file_name().unwrap());
        std::fs::create_dir_all(&path).expect("create scratch dir");
        TempDir { path }
    }
    pub fn write(&self, rel: &str, data: &[u8]) -> PathBuf {
        let p = self.path.join(rel);
        if let Some(parent) = p.parent() {
            let _ = std::fs::create_dir_all(parent);
        }
        std::fs::write(&p, data).expect("write scratch file");
        p
    }
}

impl Drop for TempDir {
    fn drop(&mut self) {
        // make everything removable again (mode-000 entries)
        fn fix(p: &Path) {
            use std::os::unix::fs::PermissionsExt;
            if let Ok(md) = std::fs::symlink_metadata(p) {
                if md.is_dir() {
                    let _ = std::fs::set_permissions(p, std::fs::Permissions::from_mode(0o755));
                    if let Ok(rd) = std::fs::read_dir(p) {
                        for e in rd.flatten() {
                            fix(&e.path());
                        }
                    }
                }
            }
        }
        fix(&self.path);
        let _ = std::fs::remove_dir_all(&self.path);
    }
}
