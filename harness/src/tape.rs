//! A choice tape: the single source of randomness for every generator.
//!
//! Generators are plain functions `fn(&mut Tape) -> Case`. The tape itself is
//! produced by proptest (`vec(any::<u32>(), ..)`) so that shrinking and
//! seeding stay inside the library, or by libFuzzer (bytes reinterpreted as
//! little-endian `u32`s) in the thorough tier. All index choices are mapped
//! monotonically (`x * n >> 32`), so a smaller tape value always means an
//! earlier alternative, and an exhausted tape yields zeros, i.e. the first
//! (simplest) alternative everywhere. Generators therefore list their
//! simplest alternative first.

#[derive(Clone, Debug)]
pub struct Tape<'a> {
    data: &'a [u32],
    pos: usize,
}

impl<'a> Tape<'a> {
    pub fn new(data: &'a [u32]) -> Tape<'a> {
        Tape { data, pos: 0 }
    }

    pub fn used(&self) -> usize {
        self.pos
    }

    pub fn exhausted(&self) -> bool {
        self.pos >= self.data.len()
    }

    #[inline]
    pub fn raw(&mut self) -> u32 {
        let v = self.data.get(self.pos).copied().unwrap_or(0);
        self.pos += 1;
        v
    }

    /// Uniform in `0..n` (n >= 1), monotone in the tape value.
    #[inline]
    pub fn below(&mut self, n: usize) -> usize {
        debug_assert!(n >= 1);
        ((self.raw() as u64 * n as u64) >> 32) as usize
    }

    /// Uniform in `lo..=hi`.
    #[inline]
    pub fn range(&mut self, lo: usize, hi: usize) -> usize {
        lo + self.below(hi - lo + 1)
    }

    /// True with probability `num/den`; `false` is the simple alternative.
    #[inline]
    pub fn chance(&mut self, num: u32, den: u32) -> bool {
        // high tape values => true, so that zero => false
        let v = self.below(den as usize) as u32;
        v >= den - num
    }

    pub fn bool(&mut self) -> bool {
        self.chance(1, 2)
    }

    pub fn pick<'b, T>(&mut self, xs: &'b [T]) -> &'b T {
        &xs[self.below(xs.len())]
    }

    /// Weighted choice: returns the index of the chosen weight.
    pub fn weighted(&mut self, weights: &[u32]) -> usize {
        let total: u32 = weights.iter().sum();
        let mut v = self.below(total as usize) as u32;
        for (i, w) in weights.iter().enumerate() {
            if v < *w {
                return i;
            }
            v -= *w;
        }
        weights.len() - 1
    }

    /// A small non-negative number biased toward small values:
    /// geometric-ish in `0..=max`.
    pub fn small(&mut self, max: usize) -> usize {
        if max == 0 {
            return 0;
        }
        let r = self.raw();
        // quadratic bias toward 0, monotone
        let f = (r as f64) / 4294967296.0;
        let v = (f * f * (max as f64 + 1.0)) as usize;
        v.min(max)
    }

    pub fn byte(&mut self) -> u8 {
        (self.raw() >> 24) as u8
    }
}

/// Reinterpret fuzzer bytes as a tape.
pub fn bytes_to_tape(data: &[u8]) -> Vec<u32> {
    data.chunks(4)
        .map(|c| {
            let mut b = [0u8; 4];
            b[..c.len()].copy_from_slice(c);
            u32::from_le_bytes(b)
        })
        .collect()
}
