//! One libFuzzer target for all in-process subchecks. The bytes are
//! reinterpreted as a choice tape and decoded by the same generators the
//! proptest tier uses; the semantic oracle runs inside the target.
//! Select the subcheck with VERIF_FUZZ_TARGET (e.g. "C01:line_match").
#![no_main]
use libfuzzer_sys::fuzz_target;

fuzz_target!(|data: &[u8]| {
    vlib::fuzz::one_input(data);
});
